//! Generic driver: sharded, seeded proptest runs driven from a binary, exhaustive
//! enumerations, known-finding handling, replay files and evidence output.
//!
//! Every run is a pure function of (tree, VERIF_SEED, tier): shards have fixed
//! derived seeds and fixed case counts; the rayon pool only changes wall time.

use proptest::strategy::{BoxedStrategy, Strategy};
use proptest::test_runner::{Config, RngAlgorithm, TestCaseError, TestError, TestRng, TestRunner};
use rayon::prelude::*;
use serde::{Serialize, de::DeserializeOwned};
use serde_json::{Value, json};
use std::cell::{Cell, RefCell};
use std::collections::{BTreeMap, BTreeSet, HashSet};
use std::fmt::Debug;
use std::path::PathBuf;
use std::sync::Mutex;
use std::time::Instant;

#[derive(Clone, Copy, PartialEq, Eq, Debug)]
pub enum Tier {
    Quick,
    Thorough,
}

impl Tier {
    pub fn pick<T>(self, quick: T, thorough: T) -> T {
        match self {
            Tier::Quick => quick,
            Tier::Thorough => thorough,
        }
    }
    pub fn name(self) -> &'static str {
        self.pick("quick", "thorough")
    }
}

#[derive(Default, Debug, Clone)]
pub struct PassInfo {
    pub nontrivial: bool,
    pub classes: Vec<String>,
    /// number of elementary evaluations this case stands for (0 is counted as 1)
    pub weight: u64,
}

#[derive(Debug, Clone)]
pub enum Verdict {
    Pass(PassInfo),
    Fail { sig: String, detail: String },
}

impl Verdict {
    pub fn pass(nontrivial: bool, classes: &[&str]) -> Verdict {
        Verdict::Pass(PassInfo {
            nontrivial,
            classes: classes.iter().map(|s| s.to_string()).collect(),
            weight: 1,
        })
    }
    pub fn fail(sig: impl Into<String>, detail: impl Into<String>) -> Verdict {
        Verdict::Fail {
            sig: sig.into(),
            detail: detail.into(),
        }
    }
}

#[derive(Debug, Clone, serde::Deserialize)]
pub struct KnownFinding {
    pub property: String,
    #[serde(default)]
    pub subcheck: String,
    pub signature: String,
    pub status: String,
    #[serde(default)]
    pub commit: String,
    pub what: String,
}

#[derive(Debug, Clone, Default, serde::Deserialize)]
pub struct KnownFindings {
    pub findings: Vec<KnownFinding>,
}

impl KnownFindings {
    pub fn load(root: &std::path::Path) -> KnownFindings {
        let p = root.join("known_findings.json");
        match std::fs::read_to_string(&p) {
            Ok(s) => serde_json::from_str(&s).unwrap_or_else(|e| {
                eprintln!("harness error: cannot parse {}: {e}", p.display());
                std::process::exit(2)
            }),
            Err(_) => KnownFindings::default(),
        }
    }
    /// A failure is suppressed only by a `known` entry of the same property whose
    /// signature is equal (or, with a trailing `*`, a prefix).  `fixed` entries
    /// suppress nothing.
    pub fn matches(&self, property: &str, sub: &str, sig: &str) -> Option<&KnownFinding> {
        self.findings.iter().find(|k| {
            k.status == "known"
                && k.property == property
                && (k.subcheck.is_empty() || k.subcheck == sub)
                && (k.signature == sig || (k.signature.ends_with('*') && sig.starts_with(&k.signature[..k.signature.len() - 1])))
        })
    }
}

#[derive(Debug, Clone, Serialize)]
pub struct Violation {
    pub subcheck: String,
    pub sig: String,
    pub detail: String,
    pub replay: String,
}

#[derive(Default)]
pub struct SubReport {
    pub name: String,
    pub evaluations: u64,
    pub nontrivial: HashSet<u64>,
    pub classes: BTreeMap<String, u64>,
    pub samples: Vec<Value>,
    pub known_hits: BTreeMap<String, (u64, String)>,
    pub violations: Vec<Violation>,
    pub exhaustive: bool,
    pub extra: BTreeMap<String, Value>,
    pub wall_s: f64,
}

pub struct Ctx {
    pub property: String,
    pub tier: Tier,
    pub seed: u64,
    pub root: PathBuf,
    pub known: KnownFindings,
    pub start: Instant,
    pub subs: Mutex<Vec<SubReport>>,
    pub only: Option<String>,
}

static SAN_ARMED: std::sync::atomic::AtomicBool = std::sync::atomic::AtomicBool::new(false);
static SAN_CTX: std::sync::OnceLock<(String, PathBuf)> = std::sync::OnceLock::new();

thread_local! {
    static CURRENT_CASE: RefCell<Option<(String, String)>> = const { RefCell::new(None) };
}

/// remembers the case in flight on this thread (only when a sanitizer death callback is armed)
pub fn set_current<C: Serialize>(sub: &str, case: &C) {
    if SAN_ARMED.load(std::sync::atomic::Ordering::Relaxed) {
        let js = serde_json::to_string(case).unwrap_or_default();
        CURRENT_CASE.with(|c| *c.borrow_mut() = Some((sub.to_string(), js)));
    }
}

extern "C" fn sanitizer_death() {
    // runs on the faulting thread right before the sanitizer terminates the process
    let (prop, root) = match SAN_CTX.get() {
        Some(x) => x.clone(),
        None => return,
    };
    let cur = CURRENT_CASE.with(|c| c.borrow().clone());
    let (sub, case) = cur.unwrap_or_else(|| ("unknown".into(), "null".into()));
    let dir = root.join("replays").join(&prop);
    let _ = std::fs::create_dir_all(&dir);
    let h = fnv(case.as_bytes());
    let p = dir.join(format!("{sub}-asan-{h:016x}.json"));
    let body = format!("{{\"property\": \"{prop}\", \"subcheck\": \"{sub}\", \"signature\": \"sanitizer-report\", \"detail\": \"AddressSanitizer report (see stderr of the run)\", \"case\": {case}}}");
    let _ = std::fs::write(&p, body);
    println!("VIOLATION property={} replay={}", prop, p.display());
    println!("  subcheck={sub} signature=sanitizer-report");
    use std::io::Write;
    let _ = std::io::stdout().flush();
}

/// Arms `__sanitizer_set_death_callback` if the binary was built with a sanitizer runtime.
/// Returns true when armed.
pub fn arm_sanitizer_callback(property: &str, root: &std::path::Path) -> bool {
    unsafe extern "C" {
        #[linkage = "extern_weak"]
        static __sanitizer_set_death_callback: *const std::ffi::c_void;
    }
    let sym: *const std::ffi::c_void = unsafe { __sanitizer_set_death_callback };
    if sym.is_null() {
        return false;
    }
    let _ = SAN_CTX.set((property.to_string(), root.to_path_buf()));
    let f: extern "C" fn(extern "C" fn()) = unsafe { std::mem::transmute(sym) };
    f(sanitizer_death);
    SAN_ARMED.store(true, std::sync::atomic::Ordering::Relaxed);
    true
}

thread_local! {
    static LAST_PANIC: RefCell<Option<String>> = const { RefCell::new(None) };
    static QUIET: Cell<bool> = const { Cell::new(false) };
}

pub fn install_panic_hook() {
    let default = std::panic::take_hook();
    std::panic::set_hook(Box::new(move |info| {
        let loc = info
            .location()
            .map(|l| {
                let f = l.file();
                let f = f.rsplit_once("/repo/").map(|x| x.1).unwrap_or(f);
                format!("{}:{}", f, l.line())
            })
            .unwrap_or_default();
        let msg = if let Some(s) = info.payload().downcast_ref::<&str>() {
            s.to_string()
        } else if let Some(s) = info.payload().downcast_ref::<String>() {
            s.clone()
        } else {
            "<non-string panic>".to_string()
        };
        LAST_PANIC.with(|p| *p.borrow_mut() = Some(format!("{loc}|{msg}")));
        if std::env::var("PZV_BACKTRACE").is_ok() {
            eprintln!("panic at {loc}: {msg}\n{}", std::backtrace::Backtrace::force_capture());
        }
        if !QUIET.with(|q| q.get()) {
            default(info);
        }
    }));
}

/// Runs `f`, converting a panic into `Err("file:line|message")`.
pub fn guarded<T>(f: impl FnOnce() -> T) -> Result<T, String> {
    let prev = QUIET.with(|q| q.replace(true));
    let r = std::panic::catch_unwind(std::panic::AssertUnwindSafe(f));
    QUIET.with(|q| q.set(prev));
    r.map_err(|_| LAST_PANIC.with(|p| p.borrow_mut().take()).unwrap_or_else(|| "panic".into()))
}

/// Panic signature: location + message with digits collapsed, so that the same
/// defect on different shapes has one signature.
pub fn panic_sig(p: &str) -> String {
    let (loc, msg) = p.split_once('|').unwrap_or(("", p));
    let first = msg.lines().next().unwrap_or("");
    let mut out = String::new();
    let mut in_num = false;
    for ch in first.chars().take(120) {
        if ch.is_ascii_digit() {
            if !in_num {
                out.push('#');
            }
            in_num = true;
        } else {
            in_num = false;
            out.push(ch);
        }
    }
    let file = loc.split(':').next().unwrap_or("");
    format!("panic@{file}|{out}")
}

fn fnv(bytes: &[u8]) -> u64 {
    let mut h: u64 = 0xcbf29ce484222325;
    for b in bytes {
        h ^= *b as u64;
        h = h.wrapping_mul(0x100000001b3);
    }
    h
}

pub fn mix(a: u64, b: u64) -> u64 {
    let mut z = a.wrapping_add(0x9E3779B97F4A7C15).wrapping_add(b.wrapping_mul(0xBF58476D1CE4E5B9));
    z = (z ^ (z >> 30)).wrapping_mul(0xBF58476D1CE4E5B9);
    z = (z ^ (z >> 27)).wrapping_mul(0x94D049BB133111EB);
    z ^ (z >> 31)
}

fn trim_sample(v: Value) -> Value {
    let s = v.to_string();
    if s.len() <= 1500 {
        v
    } else {
        let cut: String = s.chars().take(1500).collect();
        json!({ "truncated_json": cut, "full_len": s.len() })
    }
}

impl Ctx {
    pub fn from_args(property: &str, args: &[String]) -> Ctx {
        let tier = match args.first().map(|s| s.as_str()).or(std::env::var("VERIF_TIER").ok().as_deref()) {
            Some("thorough") => Tier::Thorough,
            _ => Tier::Quick,
        };
        let seed = std::env::var("VERIF_SEED").ok().and_then(|s| s.parse::<i128>().ok()).unwrap_or(0) as u64;
        let root = PathBuf::from(std::env::var("VERIF_ROOT").unwrap_or_else(|_| "/verif".into()));
        let known = KnownFindings::load(&root);
        Ctx {
            property: property.to_string(),
            tier,
            seed,
            root,
            known,
            start: Instant::now(),
            subs: Mutex::new(Vec::new()),
            only: std::env::var("PZV_ONLY").ok(),
        }
    }

    pub fn skip(&self, name: &str) -> bool {
        match &self.only {
            Some(o) => !name.contains(o.as_str()),
            None => false,
        }
    }

    fn write_replay<C: Serialize>(&self, sub: &str, case: &C, sig: &str, detail: &str) -> String {
        let dir = self.root.join("replays").join(&self.property);
        let _ = std::fs::create_dir_all(&dir);
        let body = json!({"property": self.property, "subcheck": sub, "signature": sig, "detail": detail, "case": case});
        let s = serde_json::to_string_pretty(&body).unwrap();
        let h = fnv(serde_json::to_string(&json!({"s": sub, "c": case})).unwrap().as_bytes());
        let p = dir.join(format!("{sub}-{h:016x}.json"));
        let _ = std::fs::write(&p, s);
        p.display().to_string()
    }

    fn report_violation<C: Serialize>(&self, rep: &mut SubReport, case: &C, sig: String, detail: String) {
        let replay = self.write_replay(&rep.name, case, &sig, &detail);
        rep.violations.push(Violation {
            subcheck: rep.name.clone(),
            sig,
            detail,
            replay,
        });
    }

    /// Sharded proptest run.  `total_cases` are split over `shards` runners with
    /// fixed derived seeds.  The closure re-runs during shrinking, so statistics
    /// stop at the first failure of a shard.
    pub fn run_sub<C, SF, TF>(&self, name: &str, total_cases: u32, shards: u32, strat_fn: SF, test: TF)
    where
        C: Serialize + DeserializeOwned + Debug + Clone + Send + 'static,
        SF: Fn() -> BoxedStrategy<C> + Sync,
        TF: Fn(&C) -> Verdict + Sync,
    {
        if self.skip(name) {
            return;
        }
        let t0 = Instant::now();
        let shards = shards.max(1);
        let per = total_cases.div_ceil(shards).max(1);
        let sub_h = fnv(format!("{}/{}", self.property, name).as_bytes());
        let outs: Vec<SubReport> = (0..shards)
            .into_par_iter()
            .map(|sh| {
                let mut rep = SubReport {
                    name: name.to_string(),
                    ..Default::default()
                };
                let s = mix(mix(self.seed, sub_h), sh as u64);
                let mut seed32 = [0u8; 32];
                for i in 0..4 {
                    seed32[i * 8..i * 8 + 8].copy_from_slice(&mix(s, i as u64).to_le_bytes());
                }
                let mut cfg = Config::with_cases(per);
                cfg.failure_persistence = None;
                cfg.max_shrink_iters = 600;
                cfg.max_global_rejects = 1 << 20;
                cfg.max_local_rejects = 1 << 20;
                let mut runner = TestRunner::new_with_rng(cfg, TestRng::from_seed(RngAlgorithm::ChaCha, &seed32));
                let failed = Cell::new(false);
                let cell = RefCell::new(&mut rep);
                let strat = strat_fn();
                let r = runner.run(&strat, |case: C| {
                    set_current(name, &case);
                    let v = match guarded(|| test(&case)) {
                        Ok(v) => v,
                        Err(p) => Verdict::Fail {
                            sig: panic_sig(&p),
                            detail: format!("panic: {p}"),
                        },
                    };
                    let counting = !failed.get();
                    match v {
                        Verdict::Pass(info) => {
                            if counting {
                                let mut rep = cell.borrow_mut();
                                rep.evaluations += info.weight.max(1);
                                let js = serde_json::to_value(&case).unwrap();
                                if info.nontrivial {
                                    rep.nontrivial.insert(fnv(js.to_string().as_bytes()));
                                }
                                let mut new_class = false;
                                for c in &info.classes {
                                    let e = rep.classes.entry(c.clone()).or_insert(0);
                                    if *e == 0 {
                                        new_class = true;
                                    }
                                    *e += 1;
                                }
                                if sh == 0 && info.nontrivial && (rep.samples.len() < 2 || (new_class && rep.samples.len() < 6)) {
                                    rep.samples.push(trim_sample(js));
                                }
                            }
                            Ok(())
                        }
                        Verdict::Fail { sig, detail } => {
                            if self.known.matches(&self.property, name, &sig).is_some() {
                                if counting {
                                    let mut rep = cell.borrow_mut();
                                    rep.evaluations += 1;
                                    let e = rep.known_hits.entry(sig.clone()).or_insert((0, detail.clone()));
                                    e.0 += 1;
                                }
                                Ok(())
                            } else {
                                failed.set(true);
                                Err(TestCaseError::fail(sig))
                            }
                        }
                    }
                });
                drop(cell);
                match r {
                    Ok(()) => {}
                    Err(TestError::Fail(_, case)) => {
                        // re-run on the shrunk case to get its own signature/detail
                        let (sig, detail) = match guarded(|| test(&case)) {
                            Ok(Verdict::Fail { sig, detail }) => (sig, detail),
                            Err(p) => (panic_sig(&p), format!("panic: {p}")),
                            Ok(Verdict::Pass(_)) => ("nondeterministic".to_string(), "shrunk case passes on re-run".to_string()),
                        };
                        self.report_violation(&mut rep, &case, sig, detail);
                    }
                    Err(TestError::Abort(reason)) => {
                        eprintln!("harness error: sub-check {name} shard {sh} aborted: {reason}");
                        std::process::exit(2);
                    }
                }
                rep
            })
            .collect();
        let mut merged = SubReport {
            name: name.to_string(),
            ..Default::default()
        };
        for o in outs {
            merge_into(&mut merged, o);
        }
        merged.wall_s = t0.elapsed().as_secs_f64();
        self.finish_sub(merged);
    }

    /// Exhaustive / enumerated run over explicit blocks of cases (no shrinking;
    /// the first failing case of a block is reported as is).
    pub fn run_enum<C, TF>(&self, name: &str, exhaustive: bool, blocks: Vec<Vec<C>>, test: TF)
    where
        C: Serialize + Debug + Clone + Send + Sync,
        TF: Fn(&C) -> Verdict + Sync,
    {
        if self.skip(name) {
            return;
        }
        let t0 = Instant::now();
        let outs: Vec<SubReport> = blocks
            .into_par_iter()
            .enumerate()
            .map(|(bi, block)| {
                let mut rep = SubReport {
                    name: name.to_string(),
                    ..Default::default()
                };
                let mut reported: BTreeSet<String> = BTreeSet::new();
                for case in block.iter() {
                    set_current(name, case);
                    let v = match guarded(|| test(case)) {
                        Ok(v) => v,
                        Err(p) => Verdict::Fail {
                            sig: panic_sig(&p),
                            detail: format!("panic: {p}"),
                        },
                    };
                    match v {
                        Verdict::Pass(info) => {
                            rep.evaluations += info.weight.max(1);
                            let js = serde_json::to_value(case).unwrap();
                            if info.nontrivial {
                                rep.nontrivial.insert(fnv(js.to_string().as_bytes()));
                            }
                            for c in &info.classes {
                                *rep.classes.entry(c.clone()).or_insert(0) += 1;
                            }
                            if bi == 0 && info.nontrivial && rep.samples.len() < 3 {
                                rep.samples.push(trim_sample(js));
                            }
                        }
                        Verdict::Fail { sig, detail } => {
                            rep.evaluations += 1;
                            if self.known.matches(&self.property, name, &sig).is_some() {
                                let e = rep.known_hits.entry(sig.clone()).or_insert((0, detail.clone()));
                                e.0 += 1;
                            } else if reported.insert(sig.clone()) {
                                self.report_violation(&mut rep, case, sig, detail);
                            }
                        }
                    }
                }
                rep
            })
            .collect();
        let mut merged = SubReport {
            name: name.to_string(),
            exhaustive,
            ..Default::default()
        };
        for o in outs {
            merge_into(&mut merged, o);
        }
        merged.wall_s = t0.elapsed().as_secs_f64();
        self.finish_sub(merged);
    }

    pub fn add_report(&self, rep: SubReport) {
        self.finish_sub(rep);
    }

    fn finish_sub(&self, mut rep: SubReport) {
        // one report per signature (shards / blocks may rediscover the same defect)
        let mut seen = BTreeSet::new();
        rep.violations.sort_by_key(|v| v.detail.len());
        rep.violations.retain(|v| seen.insert(v.sig.clone()));
        for v in &rep.violations {
            println!("VIOLATION property={} replay={}", self.property, v.replay);
            println!("  subcheck={} signature={}", rep.name, v.sig);
            for l in v.detail.lines().take(12) {
                println!("  | {l}");
            }
        }
        eprintln!(
            "[{}] {:<34} evals={:<9} nontrivial={:<8} known_hits={:<5} violations={} ({:.1}s)",
            self.property,
            rep.name,
            rep.evaluations,
            rep.nontrivial.len(),
            rep.known_hits.values().map(|x| x.0).sum::<u64>(),
            rep.violations.len(),
            rep.wall_s
        );
        self.subs.lock().unwrap().push(rep);
    }

    /// Writes evidence, prints KNOWN-FINDING lines, returns the process exit code.
    pub fn finish(&self, rule: &str, assumptions: &[&str], health: &[(&str, u64)]) -> i32 {
        let subs = self.subs.lock().unwrap();
        let mut evaluations = 0u64;
        let mut distinct = 0u64;
        let mut samples: Vec<Value> = vec![];
        let mut classes: BTreeMap<String, u64> = BTreeMap::new();
        let mut per_sub = vec![];
        let mut violations = 0usize;
        let mut known: BTreeMap<String, (u64, String, String)> = BTreeMap::new();
        for s in subs.iter() {
            evaluations += s.evaluations;
            distinct += s.nontrivial.len() as u64;
            for x in s.samples.iter().take(4) {
                samples.push(json!({"subcheck": s.name, "case": x}));
            }
            for (k, v) in &s.classes {
                *classes.entry(format!("{}:{}", s.name, k)).or_insert(0) += v;
            }
            violations += s.violations.len();
            for (sig, (n, d)) in &s.known_hits {
                let e = known.entry(sig.clone()).or_insert((0, d.clone(), s.name.clone()));
                e.0 += n;
            }
            per_sub.push(json!({
                "name": s.name, "evaluations": s.evaluations, "distinct_nontrivial": s.nontrivial.len(),
                "exhaustive": s.exhaustive, "wall_s": (s.wall_s*100.0).round()/100.0,
                "violations": s.violations.iter().map(|v| json!({"sig": v.sig, "replay": v.replay})).collect::<Vec<_>>(),
                "extra": s.extra,
            }));
        }
        let mut known_out = vec![];
        // one line per listed finding (several signatures may match one prefix entry)
        let mut per_entry: BTreeMap<String, (u64, Vec<String>, String)> = BTreeMap::new();
        for (sig, (n, d, sub)) in &known {
            let k = self.known.matches(&self.property, sub, sig).unwrap();
            let e = per_entry.entry(k.signature.clone()).or_insert((0, vec![], k.what.clone()));
            e.0 += n;
            e.1.push(sig.clone());
            known_out.push(json!({"signature": sig, "listed_as": k.signature, "hits": n, "example": d.lines().next().unwrap_or("")}));
        }
        for (entry, (n, sigs, what)) in &per_entry {
            println!("KNOWN-FINDING: property={} {} [listed signature={} hits={} distinct signatures={}]", self.property, what, entry, n, sigs.len());
        }
        // generator health: required classes must be populated
        let mut unhealthy = vec![];
        for (cls, min) in health {
            let have: u64 = classes.iter().filter(|(k, _)| k.ends_with(&format!(":{cls}")) || k.contains(cls)).map(|(_, v)| *v).sum();
            if have < *min && self.only.is_none() {
                unhealthy.push(format!("{cls}: {have} < {min}"));
            }
        }
        let wall = self.start.elapsed().as_secs_f64();
        let ev = json!({
            "property_id": self.property,
            "tier": self.tier.name(),
            "seed": self.seed as i64,
            "level": "exploration",
            "coverage": {
                "evaluations": evaluations,
                "distinct_nontrivial": distinct,
                "rule": rule,
                "samples": samples,
                "classes": classes,
                "subchecks": per_sub,
                "known_findings_hit": known_out,
                "exhaustive": false,
            },
            "assumptions": assumptions,
            "wall_s": (wall*100.0).round()/100.0,
            "violations": violations,
        });
        let dir = self.root.join("evidence");
        let _ = std::fs::create_dir_all(&dir);
        // a property served by two engines writes parts that ./check merges
        let name = std::env::var("PZV_EVIDENCE_NAME").unwrap_or_else(|_| self.property.clone());
        let p = dir.join(format!("{name}.json"));
        if let Err(e) = std::fs::write(&p, serde_json::to_string_pretty(&ev).unwrap()) {
            eprintln!("harness error: cannot write evidence {}: {e}", p.display());
            return 2;
        }
        eprintln!(
            "[{}] {} seed={} evaluations={} distinct_nontrivial={} violations={} wall={:.1}s",
            self.property,
            self.tier.name(),
            self.seed,
            evaluations,
            distinct,
            violations,
            wall
        );
        if violations > 0 {
            return 1;
        }
        if !unhealthy.is_empty() {
            eprintln!("harness error: generator health: {}", unhealthy.join("; "));
            return 2;
        }
        if self.only.is_none() && (evaluations == 0 || distinct < 2) {
            eprintln!("harness error: nothing non-trivial was explored");
            return 2;
        }
        0
    }

    /// Replays one case through `test` in strict mode.
    pub fn replay_case<C, TF>(&self, sub: &str, case_json: &Value, test: TF) -> i32
    where
        C: Serialize + DeserializeOwned + Debug,
        TF: Fn(&C) -> Verdict,
    {
        let case: C = match serde_json::from_value(case_json.clone()) {
            Ok(c) => c,
            Err(e) => {
                eprintln!("harness error: cannot decode case for {sub}: {e}");
                return 2;
            }
        };
        let v = match guarded(|| test(&case)) {
            Ok(v) => v,
            Err(p) => Verdict::Fail {
                sig: panic_sig(&p),
                detail: format!("panic: {p}"),
            },
        };
        match v {
            Verdict::Pass(i) => {
                println!("replay: PASS subcheck={sub} nontrivial={} classes={:?}", i.nontrivial, i.classes);
                0
            }
            Verdict::Fail { sig, detail } => {
                println!("replay: FAIL subcheck={sub} signature={sig}");
                for l in detail.lines().take(40) {
                    println!("  | {l}");
                }
                1
            }
        }
    }
}

fn merge_into(m: &mut SubReport, o: SubReport) {
    m.evaluations += o.evaluations;
    m.nontrivial.extend(o.nontrivial);
    for (k, v) in o.classes {
        *m.classes.entry(k).or_insert(0) += v;
    }
    for s in o.samples {
        if m.samples.len() < 8 {
            m.samples.push(s);
        }
    }
    for (k, (n, d)) in o.known_hits {
        let e = m.known_hits.entry(k).or_insert((0, d));
        e.0 += n;
    }
    m.violations.extend(o.violations);
    for (k, v) in o.extra {
        m.extra.insert(k, v);
    }
}

/// Reads a replay file; returns (property, subcheck, case).
pub fn read_replay(path: &str) -> (String, String, Value) {
    let s = std::fs::read_to_string(path).unwrap_or_else(|e| {
        eprintln!("harness error: cannot read {path}: {e}");
        std::process::exit(2)
    });
    let v: Value = serde_json::from_str(&s).unwrap_or_else(|e| {
        eprintln!("harness error: cannot parse {path}: {e}");
        std::process::exit(2)
    });
    (
        v["property"].as_str().unwrap_or("").to_string(),
        v["subcheck"].as_str().unwrap_or("").to_string(),
        v["case"].clone(),
    )
}

/// Monotone index map for shrinking-friendly selection from a list.
pub fn pick<T: Clone>(items: &[T], r: u16) -> T {
    items[((r as usize) * items.len()) >> 16].clone()
}

pub fn boxed<S: Strategy + 'static>(s: S) -> BoxedStrategy<S::Value> {
    s.boxed()
}
